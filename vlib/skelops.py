"""Catalogue of navis skeleton operations used to build random histories (C01, C02, C03, C15).

Each entry: gen(rng, x) -> params | None ; apply(x, params, inplace) -> result (TreeNeuron or list of them);
model(prev_rows, params, result_neuron) -> Coq expression of type `table` predicted by model/Ops.v, or None
when the operation is only checked for well-formedness (its exact output depends on geometry handled in
other properties)."""
import pickle

import numpy as np

from . import forest as F
from .coqio import term


def ids_of(x):
    return [int(v) for v in x.nodes.node_id.values]


def nonroots(x):
    nd = x.nodes
    return [int(v) for v in nd.node_id.values[nd.parent_id.values >= 0]]


def coqt(rows):
    return '(mk %s)' % term([(int(a), int(b)) for a, b, *_ in rows])


def _pick(rng, l, k=None):
    if k is None:
        return int(l[int(rng.integers(len(l)))])
    k = min(k, len(l))
    return [int(v) for v in rng.choice(np.array(l, dtype=object), size=k, replace=False)]


OPS = {}


def op(name, inplace_kw=True):
    def deco(cls):
        cls.name = name
        cls.inplace_kw = inplace_kw
        OPS[name] = cls
        return cls
    return deco


@op('reroot')
class Reroot:
    @staticmethod
    def gen(rng, x):
        return dict(r=_pick(rng, ids_of(x)))

    @staticmethod
    def apply(x, p, inplace):
        import navis
        return navis.reroot_skeleton(x, p['r'], inplace=inplace)

    @staticmethod
    def model(prev, p, res):
        return '(run [OReroot %s] %s)' % (term(p['r']), coqt(prev))


@op('reroot_seq')
class RerootSeq:
    @staticmethod
    def gen(rng, x):
        if rng.random() < 0.4:
            # first a node below a root, then that root itself: by then it is no longer a root and must be rerooted to again
            par = dict(zip((int(v) for v in x.nodes.node_id.values), (int(v) for v in x.nodes.parent_id.values)))
            nr = [i for i in ids_of(x) if par[i] >= 0]
            if nr:
                a = _pick(rng, nr)
                r = a
                while par[r] >= 0:
                    r = par[r]
                return dict(rs=[a, r] + ([_pick(rng, ids_of(x))] if rng.random() < 0.3 else []))
        return dict(rs=_pick(rng, ids_of(x), int(rng.integers(2, 5))))

    @staticmethod
    def apply(x, p, inplace):
        import navis
        return navis.reroot_skeleton(x, p['rs'], inplace=inplace)

    @staticmethod
    def model(prev, p, res):
        return '(run %s %s)' % (term([_raw('OReroot %s' % term(r)) for r in p['rs']]), coqt(prev))


def _raw(s):
    from .coqio import Raw
    return Raw(s)


@op('subset')
class Subset:
    @staticmethod
    def gen(rng, x):
        ids = ids_of(x)
        k = int(rng.integers(0, len(ids) + 1))
        S = _pick(rng, ids, k) if k else []
        kind = str(rng.choice(['list', 'set', 'mask', 'array', 'frame', 'graph']))
        extra = [int(max(ids) + 5)] if rng.random() < 0.2 and kind in ('list', 'set', 'array') else []
        return dict(S=S, kind=kind, extra=extra)

    @staticmethod
    def apply(x, p, inplace):
        import navis
        S = p['S'] + p['extra']
        if p['kind'] == 'set':
            arg = set(S)
        elif p['kind'] == 'mask':
            arg = np.isin(x.nodes.node_id.values, p['S'])
        elif p['kind'] == 'array':
            arg = np.array(S, dtype=np.int64)
        elif p['kind'] == 'frame':
            arg = x.nodes[x.nodes.node_id.isin(p['S'])]
        elif p['kind'] == 'graph':
            arg = x.graph.subgraph(p['S'])
        else:
            arg = list(S)
        return navis.subset_neuron(x, arg, inplace=inplace)

    @staticmethod
    def model(prev, p, res):
        return '(run [OSubset %s] %s)' % (term(p['S'] + p['extra']), coqt(prev))


@op('cut_distal', inplace_kw=False)
class CutDistal:
    ret = 'distal'

    @classmethod
    def gen(cls, rng, x):
        if x.n_trees != 1 or not nonroots(x):
            return None
        return dict(c=_pick(rng, nonroots(x)))

    @classmethod
    def apply(cls, x, p, inplace):
        import navis
        return navis.cut_skeleton(x, p['c'], ret=cls.ret)[0]

    @classmethod
    def model(cls, prev, p, res):
        return '(run [%s %s] %s)' % ('OCutDistal' if cls.ret == 'distal' else 'OCutProximal', term(p['c']), coqt(prev))


@op('cut_proximal', inplace_kw=False)
class CutProximal(CutDistal):
    ret = 'proximal'


class _Pruner:
    """Operations whose kept node set is decided by geometry / morphometrics (checked in C12/C13):
    here the model only says that the result is the subset (or contraction) of the input to the
    node set the implementation kept."""
    how = 'OSubset'

    @classmethod
    def model(cls, prev, p, res):
        return '(run [%s %s] %s)' % (cls.how, term(ids_of(res)), coqt(prev))


@op('prune_twigs')
class PruneTwigs(_Pruner):
    @staticmethod
    def gen(rng, x):
        return dict(size=float(rng.choice([0.5, 1.5, 2.5, 4.5, 7.5, 12.5])), recursive=[False, True, 2][int(rng.integers(3))])

    @staticmethod
    def apply(x, p, inplace):
        import navis
        return navis.prune_twigs(x, size=p['size'], recursive=p['recursive'], inplace=inplace)


@op('prune_by_strahler')
class PruneStrahler(_Pruner):
    @staticmethod
    def gen(rng, x):
        # contiguous from the tips, from the top, and NON-contiguous selections (kept nodes end up between removed ones)
        import navis
        try:
            top = int(navis.strahler_index(x.copy()).nodes.strahler_index.max())
        except Exception:
            top = 1
        if top >= 3 and rng.random() < 0.5:
            return dict(to_prune=[1, top] if rng.random() < 0.7 else [1, 2, top][:: int(rng.choice([1, -1]))] if top > 3 else [top, 1])
        return dict(to_prune=[1, [1, 2], -1, range(1, 3), 2, [1, 3], [3, 1], [2, 4], [1, 2, 4], slice(1, None), 3][int(rng.integers(11))])

    @staticmethod
    def apply(x, p, inplace):
        import navis
        return navis.prune_by_strahler(x, to_prune=p['to_prune'], reroot_soma=False, force_strahler_update=True, inplace=inplace)


@op('prune_at_depth')
class PruneDepth(_Pruner):
    @staticmethod
    def gen(rng, x):
        return dict(depth=float(rng.choice([0.5, 2.5, 5.5, 10.5])), source=_pick(rng, [int(r) for r in x.root]) if rng.random() < 0.5 else _pick(rng, ids_of(x)))

    @staticmethod
    def apply(x, p, inplace):
        import navis
        return navis.prune_at_depth(x, depth=p['depth'], source=p['source'], inplace=inplace)


@op('longest_neurite')
class Longest(_Pruner):
    @staticmethod
    def gen(rng, x):
        return dict(n=int(rng.integers(1, 4)), inverse=bool(rng.random() < 0.3), reroot_soma=False)

    @staticmethod
    def apply(x, p, inplace):
        import navis
        return navis.longest_neurite(x, n=p['n'], reroot_soma=False, inverse=p['inverse'], inplace=inplace)


@op('drop_fluff')
class DropFluff(_Pruner):
    @staticmethod
    def gen(rng, x):
        return dict(keep_size=[None, 2, 3][int(rng.integers(3))], n_largest=[None, 1, 2][int(rng.integers(3))])

    @staticmethod
    def apply(x, p, inplace):
        import navis
        if p['keep_size'] is not None and p['n_largest'] is not None:
            p['n_largest'] = None
        return navis.drop_fluff(x, keep_size=p['keep_size'], n_largest=p['n_largest'], inplace=inplace)


@op('downsample')
class Downsample(_Pruner):
    how = 'OContract'

    @staticmethod
    def gen(rng, x):
        return dict(factor=[2, 3, 5, float('inf')][int(rng.integers(4))])

    @staticmethod
    def apply(x, p, inplace):
        import navis
        return navis.downsample_neuron(x, p['factor'], inplace=inplace)


@op('remove_nodes')
class RemoveNodes:
    @staticmethod
    def gen(rng, x):
        ids = ids_of(x)
        if len(ids) < 2:
            return None
        if rng.random() < 0.4:
            # a run of ADJACENT nodes, listed child first (or in random order): grandchildren must skip all of them
            par = dict(zip((int(v) for v in x.nodes.node_id.values), (int(v) for v in x.nodes.parent_id.values)))
            j = int(ids[int(rng.integers(len(ids)))])
            run_ = []
            while j >= 0 and len(run_) < int(rng.integers(2, 5)):
                run_.append(j)
                j = par[j]
            if len(run_) >= 2 and len(run_) < len(ids):
                if rng.random() < 0.3:
                    run_ = [int(v) for v in rng.permutation(run_)]
                return dict(which=run_)
        return dict(which=_pick(rng, ids, int(rng.integers(1, max(2, len(ids) // 2)))))

    @staticmethod
    def apply(x, p, inplace):
        import navis
        return navis.remove_nodes(x, p['which'], inplace=inplace)

    @staticmethod
    def model(prev, p, res):
        keep = [i for i, *_ in prev if i not in set(p['which'])]
        return '(run [OContract %s] %s)' % (term(keep), coqt(prev))


@op('insert_nodes')
class InsertNodes:
    @staticmethod
    def gen(rng, x):
        nr = nonroots(x)
        if not nr:
            return None
        ch = _pick(rng, nr, int(rng.integers(1, 4)))
        par = dict(zip(x.nodes.node_id.values, x.nodes.parent_id.values))
        return dict(pairs=[(int(par[c]), int(c)) if rng.random() < 0.5 else (int(c), int(par[c])) for c in ch], children=ch)

    @staticmethod
    def apply(x, p, inplace):
        import navis
        return navis.insert_nodes(x, where=p['pairs'], inplace=inplace)

    @staticmethod
    def model(prev, p, res):
        mx = max(i for i, *_ in prev)
        ops = [_raw('OInsert %s %s 0' % (term(c), term(mx + 1 + k))) for k, c in enumerate(p['children'])]
        return '(run %s %s)' % (term(ops), coqt(prev))


class _IdOp:
    @staticmethod
    def model(prev, p, res):
        return '(run [OId] %s)' % coqt(prev)


@op('mul', inplace_kw=False)
class Mul(_IdOp):
    @staticmethod
    def gen(rng, x):
        return dict(k=[2, 0.5, 4, [1, 2, 4, 1]][int(rng.integers(4))])

    @staticmethod
    def apply(x, p, inplace):
        if inplace:
            x *= p['k'] if not isinstance(p['k'], list) else np.array(p['k'])
            return x
        return x * (p['k'] if not isinstance(p['k'], list) else np.array(p['k']))


@op('add', inplace_kw=False)
class Add(_IdOp):
    @staticmethod
    def gen(rng, x):
        return dict(k=[3, -2, [1, 2, 3]][int(rng.integers(3))])

    @staticmethod
    def apply(x, p, inplace):
        k = p['k'] if not isinstance(p['k'], list) else np.array(p['k'])
        if inplace:
            x += k
            return x
        return x + k


@op('copy', inplace_kw=False)
class Copy(_IdOp):
    @staticmethod
    def gen(rng, x):
        return dict(deep=bool(rng.integers(2)))

    @staticmethod
    def apply(x, p, inplace):
        return x.copy(deepcopy=p['deep'])


@op('pickle', inplace_kw=False)
class Pickle(_IdOp):
    @staticmethod
    def gen(rng, x):
        return {}

    @staticmethod
    def apply(x, p, inplace):
        return pickle.loads(pickle.dumps(x))


@op('smooth')
class Smooth(_IdOp):
    @staticmethod
    def gen(rng, x):
        return dict(window=int(rng.integers(2, 6)))

    @staticmethod
    def apply(x, p, inplace):
        import navis
        return navis.smooth_skeleton(x, window=p['window'], inplace=inplace)


@op('despike')
class Despike(_IdOp):
    @staticmethod
    def gen(rng, x):
        return dict(sigma=float(rng.choice([1, 3, 5])), reverse=bool(rng.integers(2)))

    @staticmethod
    def apply(x, p, inplace):
        import navis
        return navis.despike_skeleton(x, sigma=p['sigma'], inplace=inplace, reverse=p.get('reverse', False))


@op('heal')
class Heal:
    @staticmethod
    def gen(rng, x):
        return dict(method=str(rng.choice(['ALL', 'LEAFS'])), max_dist=[None, None, 5.0, 30.0][int(rng.integers(4))],
                    min_size=[None, None, 2][int(rng.integers(3))], drop_disc=bool(rng.random() < 0.2))

    @staticmethod
    def apply(x, p, inplace):
        import navis
        return navis.heal_skeleton(x, method=p['method'], max_dist=p['max_dist'], min_size=p['min_size'],
                                   drop_disc=p['drop_disc'], inplace=inplace)
    model = None   # structure checked by C11 (undirected edge sets); here only well-formedness


@op('resample')
class Resample:
    @staticmethod
    def gen(rng, x):
        return dict(res=float(rng.choice([0.75, 1.5, 3.5, 10.5])))

    @staticmethod
    def apply(x, p, inplace):
        import navis
        return navis.resample_skeleton(x, p['res'], inplace=inplace)
    model = None


@op('merge_duplicate_nodes')
class MergeDup:
    @staticmethod
    def gen(rng, x):
        return {}

    @staticmethod
    def apply(x, p, inplace):
        import navis
        return navis.graph.clinic.merge_duplicate_nodes(x, inplace=inplace)
    model = None


@op('rewire', inplace_kw=True)
class Rewire:
    """rewire_skeleton with the neuron's own graph minus one edge"""
    @staticmethod
    def gen(rng, x):
        nr = nonroots(x)
        if not nr:
            return None
        # optionally name the root explicitly: any node, in particular one of a fragment other than the first root's
        root = _pick(rng, ids_of(x)) if rng.random() < 0.5 else None
        if root is not None and rng.random() < 0.6:
            # a root in ANOTHER fragment than the neuron's first root (if there is one)
            par = dict(zip((int(v) for v in x.nodes.node_id.values), (int(v) for v in x.nodes.parent_id.values)))
            def top(i):
                while par[i] >= 0:
                    i = par[i]
                return i
            first = top(int(x.root[0]))
            other = [i for i in ids_of(x) if top(i) != first]
            if other:
                root = _pick(rng, other)
        return dict(drop=_pick(rng, nr), root=root)

    @staticmethod
    def apply(x, p, inplace):
        import navis
        g = x.graph.copy()
        par = dict(zip(x.nodes.node_id.values, x.nodes.parent_id.values))
        g.remove_edge(p['drop'], par[p['drop']])
        return navis.rewire_skeleton(x, g, root=p.get('root'), inplace=inplace)
    model = None


@op('break_fragments', inplace_kw=False)
class BreakFragments:
    @staticmethod
    def gen(rng, x):
        return {}

    @staticmethod
    def apply(x, p, inplace):
        import navis
        return list(navis.break_fragments(x))
    model = None



def _relabel_overlap(rng, f, xids):
    """give the fresh forest ids that PARTLY clash with the current neuron's ids and otherwise sit just above its largest id
    (A = 1..3, B = 2..5): the id remapping of stitch/combine must cope with its own fresh ids"""
    n = len(f['ids'])
    xs = sorted(int(v) for v in xids)
    k = int(rng.integers(1, max(2, min(n, len(xs)) + 1)))
    shared = [int(v) for v in rng.choice(xs, size=min(k, len(xs)), replace=False)]
    top = max(xs) + 1
    fresh = [top + j for j in range(n - len(shared))]
    new = shared + fresh
    new = [int(new[i]) for i in rng.permutation(len(new))]
    m = dict(zip(f['ids'], new))
    g = dict(f)
    g['ids'] = [m[i] for i in f['ids']]
    g['parents'] = [m[p] if p >= 0 else -1 for p in f['parents']]
    return g


@op('stitch', inplace_kw=False)
class Stitch:
    """stitch the current neuron with a fresh random one (clashing ids likely)"""
    @staticmethod
    def gen(rng, x):
        f = F.gen_forest(rng, 1, 12, roots=1, labelling='seq' if rng.random() < 0.5 else 'sparse')
        if rng.random() < 0.5:
            f = _relabel_overlap(rng, f, ids_of(x))
        return dict(other=f, method=str(rng.choice(['NONE', 'LEAFS', 'ALL'])))

    @staticmethod
    def apply(x, p, inplace):
        import navis
        o = F.mk_neuron(p['other'], name='other', nid=2)
        return navis.stitch_skeletons([x, o], method=p['method'])
    model = None


@op('combine', inplace_kw=False)
class Combine:
    @staticmethod
    def gen(rng, x):
        f = F.gen_forest(rng, 1, 12, labelling='seq' if rng.random() < 0.5 else 'sparse')
        if rng.random() < 0.5:
            f = _relabel_overlap(rng, f, ids_of(x))
        return dict(other=f)

    @staticmethod
    def apply(x, p, inplace):
        import navis
        o = F.mk_neuron(p['other'], name='other', nid=2)
        return navis.combine_neurons(x, o)
    model = None


@op('via_edges2neuron', inplace_kw=False)
class ViaEdges:
    """rebuild through navis.edges2neuron(vertices, edges) - vertices that no edge uses (isolated nodes) included"""
    @staticmethod
    def gen(rng, x):
        return dict(validate=bool(rng.integers(2)))

    @staticmethod
    def apply(x, p, inplace):
        import navis
        nd = x.nodes
        pos = {int(i): k for k, i in enumerate(nd.node_id.values)}
        edges = np.array([(pos[int(i)], pos[int(q)]) for i, q in zip(nd.node_id.values, nd.parent_id.values) if q >= 0], dtype=int).reshape(-1, 2)
        verts = nd[['x', 'y', 'z']].values.astype(float)
        return navis.edges2neuron(edges, vertices=verts, validate=p['validate'])
    model = None


@op('via_nx2neuron', inplace_kw=False)
class ViaNx:
    """rebuild through navis.nx2neuron(x.graph)"""
    @staticmethod
    def gen(rng, x):
        return dict()

    @staticmethod
    def apply(x, p, inplace):
        import navis
        return navis.nx2neuron(x.graph.copy())
    model = None


# ---- the same operations reached through TreeNeuron METHODS (these carry their own copy / cache-clearing code)
@op('m_reroot')
class MReroot(Reroot):
    @staticmethod
    def apply(x, p, inplace):
        return x.reroot(p['r'], inplace=inplace)


@op('m_prune_distal_to')
class MPruneDistal(CutProximal):
    """x.prune_distal_to(n) keeps the proximal part (cut_skeleton ret='proximal')"""
    @classmethod
    def apply(cls, x, p, inplace):
        return x.prune_distal_to(p['c'], inplace=inplace)


@op('m_prune_proximal_to')
class MPruneProximal(CutDistal):
    """x.prune_proximal_to(n) keeps the distal part, rooted at n"""
    @classmethod
    def apply(cls, x, p, inplace):
        return x.prune_proximal_to(p['c'], inplace=inplace)


@op('m_prune_twigs')
class MPruneTwigs(PruneTwigs):
    @staticmethod
    def apply(x, p, inplace):
        return x.prune_twigs(p['size'], recursive=p['recursive'], inplace=inplace)


@op('m_prune_by_strahler')
class MPruneStrahler(PruneStrahler):
    @staticmethod
    def apply(x, p, inplace):
        return x.prune_by_strahler(to_prune=p['to_prune'], reroot_soma=False, force_strahler_update=True, inplace=inplace)


@op('m_prune_at_depth')
class MPruneDepth(PruneDepth):
    @staticmethod
    def apply(x, p, inplace):
        return x.prune_at_depth(p['depth'], source=p['source'], inplace=inplace)


@op('m_prune_by_longest_neurite')
class MLongest(Longest):
    @staticmethod
    def apply(x, p, inplace):
        return x.prune_by_longest_neurite(n=p['n'], reroot_soma=False, inverse=p['inverse'], inplace=inplace)


@op('m_downsample')
class MDownsample(Downsample):
    @staticmethod
    def apply(x, p, inplace):
        return x.downsample(p['factor'], inplace=inplace)


METHODS = ['m_reroot', 'm_prune_distal_to', 'm_prune_proximal_to', 'm_prune_twigs', 'm_prune_by_strahler', 'm_prune_at_depth',
           'm_prune_by_longest_neurite', 'm_downsample']


STRUCTURAL = ['reroot', 'reroot_seq', 'subset', 'cut_distal', 'cut_proximal', 'prune_twigs', 'prune_by_strahler',
              'prune_at_depth', 'longest_neurite', 'drop_fluff', 'downsample', 'remove_nodes', 'insert_nodes',
              'mul', 'add', 'copy', 'pickle', 'smooth', 'despike', 'heal', 'resample', 'merge_duplicate_nodes',
              'rewire', 'break_fragments', 'stitch', 'combine', 'via_edges2neuron', 'via_nx2neuron'] + METHODS
