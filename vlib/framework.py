"""Check context: seeds, case bookkeeping, verdict, evidence, replay files."""
import hashlib
import json
import os
import sys
import time
import traceback

import numpy as np

from . import coqio

VERIF = coqio.VERIF


def jsonable(x):
    from fractions import Fraction
    if isinstance(x, (str, int, bool)) or x is None:
        return x
    if isinstance(x, float):
        if x != x:
            return 'nan'
        if x in (float('inf'), float('-inf')):
            return str(x)
        return x
    if isinstance(x, Fraction):
        return '%d/%d' % (x.numerator, x.denominator)
    if isinstance(x, coqio.Some):
        return {'Some': jsonable(x.v)}
    if isinstance(x, dict):
        return {str(k): jsonable(v) for k, v in x.items()}
    if isinstance(x, (list, tuple, set, frozenset)):
        return [jsonable(v) for v in x]
    if isinstance(x, np.ndarray):
        return jsonable(x.tolist())
    if hasattr(x, 'item'):
        return jsonable(x.item())
    return repr(x)


class Ctx:
    def __init__(self, pid, tier, seed):
        self.pid, self.tier, self.seed = pid, tier, seed
        self.rng = np.random.default_rng(seed)
        self.t0 = time.time()
        self.evaluations = 0
        self.distinct = set()
        self.samples = []
        self.dist = {}
        self.violations = []      # concrete failing inputs of the property
        self.mismatches = []      # model/impl disagreement, property checker still true
        self.known_hits = {}
        self.notes = []
        self.obligations = []     # (name, ok)
        self.assumptions = {}
        self.broken = []          # names of theorems/obligations/correspondences that no longer check
        self.extra = {}
        kf = json.load(open(os.path.join(VERIF, 'known_findings.json')))
        self.known = {f['key']: f for f in kf['findings'] if f['property'] == pid}

    # --- bookkeeping -------------------------------------------------------
    def quick(self):
        return self.tier == 'quick'

    def n(self, quick, thorough):
        return quick if self.tier == 'quick' else thorough

    def case(self, canon, nontrivial=True, sample=None):
        """Record one explored case. `canon` is a hashable/jsonable canonical form."""
        self.evaluations += 1
        if nontrivial:
            self.distinct.add(hashlib.sha1(json.dumps(jsonable(canon), sort_keys=True).encode()).hexdigest())
        if sample is not None and len(self.samples) < 4:
            self.samples.append(jsonable(sample))

    def count(self, key, k=1):
        self.dist[key] = self.dist.get(key, 0) + k

    def violation(self, clause, case, detail=None, key=None):
        """The property's checker is false on the implementation's output for `case`."""
        if key is not None and key in self.known:
            self.known_hits.setdefault(key, 0)
            self.known_hits[key] += 1
            return
        self.violations.append(dict(clause=clause, case=jsonable(case), detail=jsonable(detail), key=key))

    def mismatch(self, what, case, detail=None, key=None):
        """Model and implementation disagree (or an obligation broke) without a failing input."""
        if key is not None and key in self.known:
            self.known_hits.setdefault(key, 0)
            self.known_hits[key] += 1
            return
        self.mismatches.append(dict(what=what, case=jsonable(case), detail=jsonable(detail)))

    def obligation(self, name, ok, detail=''):
        self.obligations.append((name, bool(ok)))
        if not ok:
            self.broken.append(name + (': ' + detail if detail else ''))

    # --- finish ------------------------------------------------------------
    def finish(self, rule, trusted_base, assumptions, checker_cmd):
        wall = time.time() - self.t0
        for key, cnt in sorted(self.known_hits.items()):
            print('KNOWN-FINDING: property=%s %s (%d case(s) this run)' % (self.pid, self.known[key]['what'], cnt))
        rc = 0
        replay = None
        if self.violations or self.mismatches or self.broken:
            rc = 1
            body = dict(property=self.pid, seed=self.seed, tier=self.tier,
                        violations=self.violations[:20], mismatches=self.mismatches[:20],
                        no_longer_checks=self.broken)
            digest = hashlib.sha1(json.dumps(body, sort_keys=True).encode()).hexdigest()[:12]
            os.makedirs(os.path.join(VERIF, 'replays'), exist_ok=True)
            replay = os.path.join(VERIF, 'replays', '%s-%s.json' % (self.pid, digest))
            json.dump(body, open(replay, 'w'), indent=1)
            if self.violations:
                print('VIOLATION property=%s replay=%s' % (self.pid, replay))
            else:
                print('VIOLATION property=%s replay=%s no-failing-input-found' % (self.pid, replay))
        nob = len(self.obligations)
        ndis = sum(1 for _, ok in self.obligations if ok)
        ev = dict(
            property_id=self.pid, tier=self.tier, seed=int(self.seed), level='proof',
            coverage=dict(
                obligations=max(nob, 1), discharged=ndis, checker_cmd=checker_cmd,
                trusted_base=trusted_base,
                obligation_names=[n for n, _ in self.obligations],
                print_assumptions=self.assumptions,
                evaluations=self.evaluations, distinct_nontrivial=len(self.distinct),
                rule=rule, samples=self.samples or ['(no correspondence cases this run)'],
                input_distribution=self.dist,
                known_findings_hit=self.known_hits,
                traces_validated_against_impl=self.evaluations,
                **self.extra),
            assumptions=assumptions, wall_s=round(wall, 2),
            violations=len(self.violations) + len(self.mismatches) + len(self.broken))
        os.makedirs(os.path.join(VERIF, 'evidence'), exist_ok=True)
        json.dump(ev, open(os.path.join(VERIF, 'evidence', self.pid + '.json'), 'w'), indent=1)
        print('%s tier=%s seed=%s obligations=%d/%d cases=%d distinct=%d violations=%d mismatches=%d broken=%d known=%d wall=%.1fs'
              % (self.pid, self.tier, self.seed, ndis, nob, self.evaluations, len(self.distinct),
                 len(self.violations), len(self.mismatches), len(self.broken), len(self.known_hits), wall))
        return rc


class CallTimeout(Exception):
    pass


def _on_alarm(signum, frame):
    raise CallTimeout()


CALL_LIMIT_S = float(os.environ.get('VERIF_CALL_LIMIT_S', '120'))


def describe(x, depth=0):
    """small JSON description of an argument of an implementation call (for the in-flight record)"""
    try:
        if hasattr(x, 'neurons') and depth < 2:
            return [describe(n, depth + 1) for n in list(x.neurons)[:6]]
        if hasattr(x, 'nodes') and hasattr(x.nodes, 'columns'):
            nd = x.nodes
            cols = [c for c in ('node_id', 'parent_id', 'x', 'y', 'z', 'radius') if c in nd.columns]
            return dict(type=type(x).__name__, id=str(getattr(x, 'id', None)), nodes=jsonable(nd[cols].values[:120].tolist()), columns=cols,
                        n_connectors=None if getattr(x, '_connectors', None) is None else len(x._connectors))
        if isinstance(x, np.ndarray):
            return dict(ndarray=list(x.shape), head=jsonable(x.ravel()[:30].tolist()))
        if isinstance(x, (int, float, str, bool)) or x is None:
            return x
        if isinstance(x, (list, tuple)) and depth < 2:
            return [describe(v, depth + 1) for v in list(x)[:20]]
        if isinstance(x, dict) and depth < 2:
            return {str(k): describe(v, depth + 1) for k, v in list(x.items())[:20]}
    except Exception:
        pass
    return repr(x)[:200]


def guarded(fn, *a, **kw):
    path = os.environ.get('VERIF_INFLIGHT')
    if path:
        try:
            with open(path, 'w') as fh:
                json.dump(dict(call=getattr(fn, '__qualname__', repr(fn)), module=getattr(fn, '__module__', None),
                               args=[describe(v) for v in a], kwargs={k: describe(v) for k, v in kw.items()}), fh)
        except Exception:
            pass
    return _guarded(fn, *a, **kw)


def _guarded(fn, *a, **kw):
    """Run an implementation call; map exceptions to a small enum.  A call that does not return within CALL_LIMIT_S seconds
    (a corrupted table can send navis' graph code into an endless walk) is reported as crashed: 'TimeoutError'."""
    import signal
    use_alarm = hasattr(signal, 'setitimer') and __import__('threading').current_thread() is __import__('threading').main_thread()
    if use_alarm:
        old = signal.signal(signal.SIGALRM, _on_alarm)
        signal.setitimer(signal.ITIMER_REAL, CALL_LIMIT_S)
    try:
        return ('ok', fn(*a, **kw))
    except CallTimeout:
        return ('crashed', 'TimeoutError: implementation call did not return within %g s' % CALL_LIMIT_S)
    except MemoryError:
        return ('crashed', 'MemoryError: implementation call exceeded the memory cap')
    except (ValueError, KeyError, TypeError, IndexError) as e:
        return ('rejected', '%s: %s' % (type(e).__name__, str(e)[:200]))
    except Exception as e:  # noqa
        return ('crashed', '%s: %s\n%s' % (type(e).__name__, str(e)[:200], traceback.format_exc()[-600:]))
    finally:
        if use_alarm:
            signal.setitimer(signal.ITIMER_REAL, 0)
            signal.signal(signal.SIGALRM, old)
