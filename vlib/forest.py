"""Forest generators and navis helpers shared by the skeleton properties."""
import contextlib
from fractions import Fraction

import numpy as np
import pandas as pd

TYPE_CODE = {'root': 0, 'end': 1, 'branch': 2, 'slab': 3}
# integer direction vectors whose Euclidean norm is an integer (axis-aligned and Pythagorean triples):
# every edge length and every partial sum is then exact in float64 ("lattice stream")
LATTICE_DIRS = [(1, 0, 0), (0, 1, 0), (0, 0, 1), (-1, 0, 0), (0, -1, 0), (0, 0, -1), (3, 4, 0), (0, 3, 4), (4, 0, 3),
                (-3, 4, 0), (0, -3, -4), (1, 2, 2), (2, 1, 2), (2, 2, 1), (-2, 1, 2), (2, 3, 6), (6, 2, 3), (2, 0, 0), (0, 5, 0),
                (0, 0, 0)]


def gen_shape(rng, n, shape=None):
    """Return parent index list (position -> parent position or -1) for n nodes."""
    shape = shape or rng.choice(['rrt', 'rrt', 'rrt', 'chain', 'star', 'caterpillar', 'binary', 'isolated+tree'])
    par = [-1] * n
    if shape == 'chain':
        par = [-1] + list(range(n - 1))
    elif shape == 'star':
        par = [-1] + [0] * (n - 1)
    elif shape == 'caterpillar':
        spine = max(1, n // 2)
        par = [-1] + list(range(spine - 1)) + [int(rng.integers(0, spine)) for _ in range(n - spine)]
    elif shape == 'binary':
        par = [-1] + [(i - 1) // 2 for i in range(1, n)]
    elif shape == 'isolated+tree':
        k = int(rng.integers(1, max(2, min(4, n))))
        par = [-1] * k + [(-1 if i == k else (i - 1 if rng.random() < 0.6 else int(rng.integers(k, i)))) for i in range(k, n)]
    else:
        bias = rng.choice([0.3, 0.6, 0.85])
        par = [-1] + [(i - 1 if rng.random() < bias else int(rng.integers(0, i))) for i in range(1, n)]
    return [int(p) for p in par], str(shape)


def gen_forest(rng, nmin=1, nmax=40, roots=None, labelling=None, lattice=True, shape=None, zero_edges=True):
    n = int(rng.integers(nmin, nmax + 1))
    par, shape = gen_shape(rng, n, shape)
    # extra roots: cut some edges
    k = roots if roots is not None else int(rng.choice([1, 1, 1, 2, 3, 4]))
    nonroots = [i for i in range(n) if par[i] >= 0]
    for i in rng.permutation(nonroots)[:max(0, k - 1)]:
        par[int(i)] = -1
    labelling = labelling or rng.choice(['seq', 'seq', 'sparse', 'sparse', 'sparse0', 'big31', 'big32', 'big40'])
    if labelling == 'seq':
        ids = list(range(1, n + 1))
    elif labelling == 'sparse':
        ids = [int(v) for v in rng.choice(np.arange(1, 20 * n + 50), size=n, replace=False)]
    elif labelling == 'sparse0':
        ids = [int(v) for v in rng.choice(np.arange(0, 5 * n + 5), size=n, replace=False)]
        if 0 not in ids:
            ids[int(rng.integers(n))] = 0
    else:
        base = {'big31': 2 ** 31, 'big32': 2 ** 32, 'big40': 2 ** 40}[str(labelling)]
        ids = [base + int(v) for v in rng.choice(np.arange(0, 50 * n + 50), size=n, replace=False)]
    # coordinates
    xyz = [None] * n
    order = list(range(n))  # parents precede children in position order by construction
    for i in order:
        if par[i] < 0:
            xyz[i] = tuple(int(v) for v in rng.integers(-50, 50, size=3))
        else:
            if lattice:
                d = LATTICE_DIRS[int(rng.integers(len(LATTICE_DIRS) - (0 if zero_edges else 1)))]
                s = int(rng.integers(1, 4))
                xyz[i] = tuple(xyz[par[i]][j] + s * d[j] for j in range(3))
            else:
                d = rng.normal(size=3) * rng.choice([0.5, 3, 20])
                if zero_edges and rng.random() < 0.08:
                    d = d * 0
                xyz[i] = tuple(float(xyz[par[i]][j] + d[j]) for j in range(3))
    perm = [int(v) for v in rng.permutation(n)] if rng.random() < 0.7 else list(range(n))
    rows = [(ids[i], ids[par[i]] if par[i] >= 0 else -1, xyz[i]) for i in perm]
    return dict(ids=[r[0] for r in rows], parents=[r[1] for r in rows], xyz=[r[2] for r in rows],
                shape=shape, labelling=str(labelling), n=n)


def forest_df(f, radius=None):
    xyz = np.array(f['xyz'], dtype=float).reshape(-1, 3)
    df = pd.DataFrame({'node_id': np.array(f['ids'], dtype=np.int64), 'parent_id': np.array(f['parents'], dtype=np.int64),
                       'x': xyz[:, 0], 'y': xyz[:, 1], 'z': xyz[:, 2]})
    df['radius'] = 0.0 if radius is None else radius
    # a node table need not carry the default RangeIndex (rows picked with .iloc, concatenated tables ...): every fourth forest
    # (decided by its ids, so that twins built from the same forest agree) gets a reversed / offset pandas index
    key = int(sum(int(i) % 97 for i in f['ids'])) % 8
    if key == 0:
        df.index = np.arange(len(df))[::-1]
    elif key == 1:
        df.index = np.arange(len(df)) + 100
    return df


def mk_neuron(f, name='n', units=None, soma=None, connectors=None, tags=None, radius=None, nid=None):
    import navis
    n = navis.TreeNeuron(forest_df(f, radius), name=name, units=units, soma=soma, id=nid if nid is not None else 1)
    if connectors is not None:
        n.connectors = connectors
    if tags is not None:
        n.tags = tags
    return n


def gen_connectors(rng, f, kmax=12):
    k = int(rng.integers(0, kmax + 1))
    if k == 0:
        return None
    ix = rng.integers(0, len(f['ids']), size=k)
    xyz = np.array(f['xyz'], dtype=float)[ix]
    return pd.DataFrame({'connector_id': np.arange(k) + 1000, 'node_id': np.array(f['ids'], dtype=np.int64)[ix],
                         'x': xyz[:, 0], 'y': xyz[:, 1], 'z': xyz[:, 2],
                         'type': rng.choice([0, 1], size=k).astype(np.int64)})


def table_of(x):
    """Canonical (id, parent, typecode) rows of a TreeNeuron in table order; typecode -9 if missing/NaN."""
    nd = x.nodes
    ty = nd['type'].astype(object).values if 'type' in nd.columns else [None] * len(nd)
    out = []
    for i, p, t in zip(nd.node_id.values, nd.parent_id.values, ty):
        # a missing id / parent (NaN) is kept visible as a value no table can contain, so that the well-formedness checker rejects it
        out.append((int(i) if i == i else -999998, int(p) if p == p else -999999, TYPE_CODE.get(t, -9)))
    return out


def has_missing(x):
    nd = x.nodes
    return bool(nd[['node_id', 'parent_id', 'x', 'y', 'z']].isnull().values.any())


def nontrivial(f):
    par = f['parents']
    roots = sum(1 for p in par if p < 0)
    from collections import Counter
    c = Counter(p for p in par if p >= 0)
    return roots >= 2 or any(v >= 2 for v in c.values())


@contextlib.contextmanager
def backend(name):
    """'fastcore' (navis default), 'igraph' (no fastcore) or 'nx' (no fastcore, no igraph)."""
    import navis
    from navis import utils, config
    saved_fc, saved_ig = utils.fastcore, config.use_igraph
    try:
        if name == 'fastcore':
            pass
        elif name == 'igraph':
            utils.fastcore = None
            config.use_igraph = True
        elif name == 'nx':
            utils.fastcore = None
            config.use_igraph = False
        else:
            raise ValueError(name)
        yield
    finally:
        utils.fastcore, config.use_igraph = saved_fc, saved_ig


def coq_table(rows):
    """[(id, parent), ...] -> Coq term for `mk`."""
    from .coqio import term
    return 'mk ' + term([(int(a), int(b)) for a, b in rows])


def edge_len(f):
    """Per-node distance to parent as exact Fractions (0 for roots)."""
    pos = {i: f['xyz'][k] for k, i in enumerate(f['ids'])}
    out = {}
    for i, p in zip(f['ids'], f['parents']):
        if p < 0:
            out[i] = Fraction(0)
        else:
            a, b = pos[i], pos[p]
            d2 = sum((Fraction(a[j]) - Fraction(b[j])) ** 2 for j in range(3))
            out[i] = d2
    return out
