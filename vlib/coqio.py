"""Python <-> Coq term plumbing and coqc runners.

Everything a check sends to the model is built with `term()`, evaluated by one
`coqc` call per shard with `Eval vm_compute`, and parsed back with `parse()`.
No per-property glue code is trusted beyond these ~150 lines.
"""
import fcntl
import os
import re
import subprocess
import time
from concurrent.futures import ThreadPoolExecutor
from fractions import Fraction

VERIF = os.path.dirname(os.path.dirname(os.path.abspath(__file__)))
COQDIR = os.path.join(VERIF, 'coq')
WORK = os.path.join(VERIF, '.work')
COQARGS = ['-Q', COQDIR, 'Navis']


class Some:
    def __init__(self, v):
        self.v = v


class Raw(str):
    """A literal Coq term."""


def term(x):
    """Render a Python value as a Coq term (Z scope; Q as Qmake)."""
    if isinstance(x, Raw):
        return str(x)
    if isinstance(x, bool):
        return 'true' if x else 'false'
    if isinstance(x, int):
        return str(x) if x >= 0 else '(%d)' % x
    if hasattr(x, 'item') and not isinstance(x, (list, tuple)):  # numpy scalar
        return term(x.item())
    if isinstance(x, Fraction):
        return '(Qmake %s %d)' % (term(x.numerator), x.denominator)
    if isinstance(x, float):
        return term(Fraction(x))
    if x is None:
        return 'None'
    if isinstance(x, Some):
        return '(Some %s)' % term(x.v)
    if isinstance(x, tuple):
        return '(' + ', '.join(term(e) for e in x) + ')'
    if isinstance(x, list):
        return '[' + '; '.join(term(e) for e in x) + ']'
    raise TypeError('no Coq rendering for %r' % type(x))


_tok = re.compile(r'\s*(?:(-?\d+)|(Some|None|true|false)|([\[\]();,#])|(%\w+))')


def parse(s):
    """Parse Coq's printing of lists/tuples/options/bools/Z/Q back to Python.
    Q values print as `n # d` and come back as Fraction."""
    toks = []
    pos = 0
    s = s.strip()
    while pos < len(s):
        m = _tok.match(s, pos)
        if not m:
            raise ValueError('cannot tokenise Coq output at %r' % s[pos:pos + 40])
        pos = m.end()
        if m.group(4):
            continue
        toks.append(m.group(1) or m.group(2) or m.group(3))
    i = [0]

    def atom():
        t = toks[i[0]]
        i[0] += 1
        if t == '[':
            out = []
            if toks[i[0]] == ']':
                i[0] += 1
                return out
            while True:
                out.append(expr())
                t2 = toks[i[0]]
                i[0] += 1
                if t2 == ']':
                    return out
                assert t2 == ';', t2
        if t == '(':
            out = [expr()]
            while toks[i[0]] == ',':
                i[0] += 1
                out.append(expr())
            assert toks[i[0]] == ')', toks[i[0]]
            i[0] += 1
            return out[0] if len(out) == 1 else tuple(out)
        if t == 'Some':
            return Some(atom())
        if t == 'None':
            return None
        if t == 'true':
            return True
        if t == 'false':
            return False
        return int(t)

    def expr():
        a = atom()
        if i[0] < len(toks) and toks[i[0]] == '#':
            i[0] += 1
            b = atom()
            return Fraction(a, b)
        return a

    v = expr()
    assert i[0] == len(toks), 'trailing tokens'
    return v


HEADER = """From Coq Require Import List ZArith QArith Bool.
Import ListNotations.
Set Printing Depth 10000000.
Set Printing Width 1000000.
Open Scope Z_scope.
"""


def _run_coqc(path, timeout):
    t0 = time.time()
    try:
        p = subprocess.run(['coqc'] + COQARGS + [path], capture_output=True, text=True,
                           timeout=timeout, cwd=os.path.dirname(path))
        return p.returncode, p.stdout, p.stderr, time.time() - t0
    except subprocess.TimeoutExpired:
        return 124, '', 'timeout after %ss' % timeout, time.time() - t0


def eval_terms(tag, imports, exprs, shard=200, timeout=600, jobs=12, preamble=''):
    """Evaluate each Coq expression in `exprs` with vm_compute; return parsed values.

    Each shard file prints one `= value : type` block per expression.  Raises
    RuntimeError (with the coqc diagnostics) if a shard does not compile."""
    d = os.path.join(WORK, tag)
    os.makedirs(d, exist_ok=True)
    for f in os.listdir(d):
        if f.startswith('cases_'):
            os.unlink(os.path.join(d, f))
    shards = [exprs[i:i + shard] for i in range(0, len(exprs), shard)]
    paths = []
    for k, sh in enumerate(shards):
        p = os.path.join(d, 'cases_%d.v' % k)
        with open(p, 'w') as fh:
            fh.write(HEADER)
            for imp in imports:
                fh.write('From Navis Require Import %s.\n' % imp)
            fh.write(preamble + '\n')
            for e in sh:
                fh.write('Eval vm_compute in (%s).\n' % e)
        paths.append(p)
    with ThreadPoolExecutor(max_workers=jobs) as ex:
        results = list(ex.map(lambda p: _run_coqc(p, timeout), paths))
    # a shard that ran out of time (machine under load / a few very large terms) is re-run alone, once, with a generous limit:
    # a slow evaluation must never be mistaken for a broken model
    slow = [k for k, res in enumerate(results) if res[0] == 124]
    if slow:
        with ThreadPoolExecutor(max_workers=max(1, min(jobs, len(slow)))) as ex:
            for k, res in zip(slow, ex.map(lambda k_: _run_coqc(paths[k_], max(3600, 6 * timeout)), slow)):
                results[k] = res
    out = []
    for p, sh, (rc, so, se, dt) in zip(paths, shards, results):
        if rc != 0:
            raise RuntimeError('coqc failed on %s (rc=%s): %s' % (p, rc, (se or so)[-2000:]))
        blocks = re.split(r'^\s*= ', so, flags=re.M)[1:]
        if len(blocks) != len(sh):
            raise RuntimeError('expected %d results from %s, got %d' % (len(sh), p, len(blocks)))
        for b in blocks:
            # strip trailing ": type"
            val = b.rsplit('\n     : ', 1)[0] if '\n     : ' in b else b.rsplit(' : ', 1)[0]
            out.append(parse(val))
    return out


class BuildResult:
    def __init__(self):
        self.ok = True
        self.log = ''
        self.failed_file = None
        self.wall = 0.0


def make(jobs=16, timeout=1500):
    """Full .vo build of /verif/coq (incremental), serialised with a file lock."""
    r = BuildResult()
    t0 = time.time()
    os.makedirs(WORK, exist_ok=True)
    with open(os.path.join(WORK, 'build.lock'), 'w') as lk:
        fcntl.flock(lk, fcntl.LOCK_EX)
        try:
            p = subprocess.run('coq_makefile -f _CoqProject -o Makefile.coq >/dev/null 2>&1 && '
                               'timeout %d make -f Makefile.coq -k -j%d 2>&1' % (timeout, jobs),
                               shell=True, cwd=COQDIR, capture_output=True, text=True)
            r.log = p.stdout[-20000:]
            r.ok = p.returncode == 0
            m = re.findall(r'File "\./([^"]+)", line (\d+)', p.stdout)
            if m:
                r.failed_file = m
        finally:
            fcntl.flock(lk, fcntl.LOCK_UN)
    r.wall = time.time() - t0
    return r


def check_props(pid, timeout=600):
    """Re-check props/<pid>.v against the compiled development.

    Returns dict(ok, theorems=[names], assumptions={name: text}, log)."""
    path = os.path.join(COQDIR, 'props', pid + '.v')
    src = open(path).read()
    names = re.findall(r'^\s*(?:Theorem|Lemma|Example|Corollary)\s+(\w+)', src, flags=re.M)
    d = os.path.join(WORK, 'props_' + pid)
    os.makedirs(d, exist_ok=True)
    tmp = os.path.join(d, pid + '_recheck.v')
    with open(tmp, 'w') as fh:
        fh.write(src)
    rc, so, se, dt = _run_coqc(tmp, timeout)
    assum = {}
    # Print Assumptions output follows each theorem, in order
    chunks = re.split(r'^(?=Closed under the global context|Axioms:)', so, flags=re.M)
    chunks = [c.strip() for c in chunks if c.strip()]
    pa = re.findall(r'Print Assumptions\s+(\w+)', src)
    for n, c in zip(pa, chunks):
        assum[n] = c
    failed = None
    if rc != 0:
        m = re.search(r'line (\d+)', se)
        if m:
            ln = int(m.group(1))
            upto = src.split('\n')[:ln]
            prev = re.findall(r'^\s*(?:Theorem|Lemma|Example|Corollary)\s+(\w+)', '\n'.join(upto), flags=re.M)
            failed = prev[-1] if prev else None
    return dict(ok=rc == 0, theorems=names, assumptions=assum, log=(se or '')[-3000:], failed=failed, wall=dt)
