"""C02 translator: extracts the cache-coherence facts of TreeNeuron from /repo (fail-closed) -> coq/gen/Gen_Cache.v

  temp_attr, core_data         class attributes of TreeNeuron (literal lists)
  views                        every @property of TreeNeuron whose body tests hasattr(self, '_x'):
                               (property name, cached attribute, wrapped in temp_property)
  clear_sites                  every  <expr>._clear_temp_attr(exclude=[...]) call in navis/ with its literal list
  getstate_pops                attributes popped from the pickled state in TreeNeuron.__getstate__
  copy_clears_when_stale       TreeNeuron.copy has the shape  `if not self.is_stale: <copy graphs> else: x._clear_temp_attr()`
  temp_property_shape_ok       core_utils.temp_property is  `if not self.is_locked: if self.is_stale: self._clear_temp_attr()`
  clear_shape_ok               BaseNeuron._clear_temp_attr returns early when locked, then refreshes md5/_stale and
                               deletes every TEMP_ATTR entry not in `exclude`
"""
import ast
import pathlib

REPO = pathlib.Path('/repo/navis')
OUTPUTS = ['Gen_Cache.v']
FAIL_TEXT = {'Gen_Cache.v': '''From Coq Require Import List String Bool.
Import ListNotations.
Open Scope string_scope.
(* translator failed closed: facts that make every obligation false *)
Definition temp_attr : list string := [].
Definition core_data : list string := [].
Definition views : list (string * string * bool) := [].
Definition clear_sites : list (string * list string * bool) := [("unrecognised", ["_graph_nx"], false)].
Definition conditional_clears : list string := ["unrecognised"].
Definition reinit_sites : list (string * bool) := [("unrecognised", false)].
Definition getstate_pops : list string := [].
Definition copy_clears_when_stale : bool := false.
Definition temp_property_shape_ok : bool := false.
Definition clear_shape_ok : bool := false.
'''}


def const_list(node):
    if isinstance(node, (ast.List, ast.Tuple)) and all(isinstance(e, ast.Constant) and isinstance(e.value, str) for e in node.elts):
        return [e.value for e in node.elts]
    raise ValueError('not a literal list of strings: ' + ast.unparse(node)[:80])


def deco_names(fn):
    out = []
    for d in fn.decorator_list:
        if isinstance(d, ast.Name):
            out.append(d.id)
        elif isinstance(d, ast.Attribute):
            out.append(d.attr)
        elif isinstance(d, ast.Call):
            out.append(d.func.attr if isinstance(d.func, ast.Attribute) else d.func.id)
    return out


def coq_str(s):
    return '"' + s.replace('"', '""') + '"'


def coq_list(xs):
    return '[' + '; '.join(xs) + ']'


def facts():
    sk = ast.parse((REPO / 'core/skeleton.py').read_text())
    cls = [n for n in sk.body if isinstance(n, ast.ClassDef) and n.name == 'TreeNeuron'][0]
    f = dict(temp_attr=None, core_data=None, views=[], clear_sites=[], getstate_pops=[], copy_clears=False)
    for n in cls.body:
        if isinstance(n, ast.Assign) and len(n.targets) == 1 and isinstance(n.targets[0], ast.Name):
            if n.targets[0].id == 'TEMP_ATTR':
                f['temp_attr'] = const_list(n.value)
            if n.targets[0].id == 'CORE_DATA':
                f['core_data'] = const_list(n.value)
        if isinstance(n, ast.FunctionDef) and 'property' in deco_names(n):
            cached = [c.args[1].value for c in ast.walk(n)
                      if isinstance(c, ast.Call) and isinstance(c.func, ast.Name) and c.func.id == 'hasattr'
                      and len(c.args) == 2 and isinstance(c.args[0], ast.Name) and c.args[0].id == 'self'
                      and isinstance(c.args[1], ast.Constant)]
            # `igraph`/`graph` use try: return self._x / except AttributeError
            if not cached:
                for t in ast.walk(n):
                    if isinstance(t, ast.Try):
                        for r in ast.walk(t):
                            if isinstance(r, ast.Return) and isinstance(r.value, ast.Attribute) and isinstance(r.value.value, ast.Name) \
                                    and r.value.value.id == 'self' and r.value.attr.startswith('_'):
                                cached.append(r.value.attr)
            cached = sorted(set(cached))
            if len(cached) == 1:
                f['views'].append((n.name, cached[0], 'temp_property' in deco_names(n)))
            elif len(cached) > 1:
                raise ValueError('property %s caches several attributes: %s' % (n.name, cached))
        if isinstance(n, ast.FunctionDef) and n.name == '__getstate__':
            for c in ast.walk(n):
                if isinstance(c, ast.Call) and isinstance(c.func, ast.Attribute) and c.func.attr == 'pop' and c.args and isinstance(c.args[0], ast.Constant):
                    f['getstate_pops'].append(c.args[0].value)
        if isinstance(n, ast.FunctionDef) and n.name == 'copy':
            for i in ast.walk(n):
                if isinstance(i, ast.If) and ast.unparse(i.test).replace(' ', '') == 'notself.is_stale':
                    if any(isinstance(c, ast.Call) and isinstance(c.func, ast.Attribute) and c.func.attr == '_clear_temp_attr'
                           for e in i.orelse for c in ast.walk(e)):
                        f['copy_clears'] = True
    if f['temp_attr'] is None or f['core_data'] is None:
        raise ValueError('TEMP_ATTR / CORE_DATA not found as literal lists')
    # call sites
    for p in sorted(REPO.rglob('*.py')):
        tree = ast.parse(p.read_text())
        for fn in [x for x in ast.walk(tree) if isinstance(x, (ast.FunctionDef, ast.AsyncFunctionDef))]:
            for c in ast.walk(fn):
                if isinstance(c, ast.Call) and isinstance(c.func, ast.Attribute) and c.func.attr == '_clear_temp_attr':
                    excl = []
                    if c.args:
                        raise ValueError('positional exclude at %s:%d' % (p, c.lineno))
                    for kw in c.keywords:
                        if kw.arg != 'exclude':
                            raise ValueError('unknown keyword at %s:%d' % (p, c.lineno))
                        if fn.name == '_clear_temp_attr' and isinstance(kw.value, ast.Name) and kw.value.id == 'exclude':
                            excl = None   # pass-through inside the override itself
                        else:
                            excl = const_list(kw.value)
                    if excl is None:
                        continue
                    f['clear_sites'].append(('%s:%s:%d' % (p.relative_to(REPO), fn.name, c.lineno), excl, 'lock_neuron' in deco_names(fn)))
    # clear calls that only run under a test on `inplace`, and re-initialisations (x.__init__(...) resets the stored hash, so the
    # stale check cannot fire afterwards) that are not followed by an unconditional clear of the same object
    f['conditional_clears'], f['reinit_sites'] = [], []
    for p in sorted(REPO.rglob('*.py')):
        tree = ast.parse(p.read_text())
        for fn in [x for x in ast.walk(tree) if isinstance(x, (ast.FunctionDef, ast.AsyncFunctionDef))]:
            guarded_ids = set()
            is_clear = lambda d: isinstance(d, ast.Call) and isinstance(d.func, ast.Attribute) and d.func.attr == '_clear_temp_attr'
            for i in ast.walk(fn):
                if isinstance(i, ast.If) and 'inplace' in ast.unparse(i.test):
                    in_body = [d for sub in i.body for d in ast.walk(sub) if is_clear(d)]
                    in_else = [d for sub in i.orelse for d in ast.walk(sub) if is_clear(d)]
                    if bool(in_body) != bool(in_else):        # cleared on one side of the inplace test only
                        for d in in_body + in_else:
                            guarded_ids.add(id(d))
            clears = [(c.lineno, ast.unparse(c.func.value), id(c) in guarded_ids) for c in ast.walk(fn)
                      if isinstance(c, ast.Call) and isinstance(c.func, ast.Attribute) and c.func.attr == '_clear_temp_attr']
            for ln, who, cond in clears:
                if cond:
                    f['conditional_clears'].append('%s:%s:%d' % (p.relative_to(REPO), fn.name, ln))
            if fn.name == '__init__':
                continue
            for c in ast.walk(fn):
                if isinstance(c, ast.Call) and isinstance(c.func, ast.Attribute) and c.func.attr == '__init__' and isinstance(c.func.value, ast.Name):
                    who = c.func.value.id
                    ok = any(ln > c.lineno and w == who and not cond for ln, w, cond in clears)
                    f['reinit_sites'].append(('%s:%s:%d' % (p.relative_to(REPO), fn.name, c.lineno), ok))
    f['conditional_clears'] = sorted(set(f['conditional_clears']))
    f['reinit_sites'] = sorted(set(f['reinit_sites']))
    # de-duplicate nested function reports
    f['clear_sites'] = sorted(set((a, tuple(b), c) for a, b, c in f['clear_sites']))
    # temp_property shape
    cu = ast.parse((REPO / 'core/core_utils.py').read_text())
    tp = [n for n in cu.body if isinstance(n, ast.FunctionDef) and n.name == 'temp_property'][0]
    src = ast.unparse(tp).replace(' ', '')
    f['tp_ok'] = ('ifnotself.is_locked:' in src and 'ifself.is_stale:' in src and 'self._clear_temp_attr()' in src
                  and src.index('ifnotself.is_locked:') < src.index('ifself.is_stale:') < src.index('self._clear_temp_attr()')
                  < src.index('returnfunc(*args,**kwargs)'))
    # BaseNeuron._clear_temp_attr shape: the EXACT statement sequence (docstring and logger calls stripped) - any extra statement
    # (e.g. one that rewrites `exclude`) changes which caches survive and is not covered by the model
    def core_stmts(fn):
        class Strip(ast.NodeTransformer):
            def visit_Expr(self, node):
                v = node.value
                if isinstance(v, ast.Constant) and isinstance(v.value, str):
                    return None
                if isinstance(v, ast.Call) and isinstance(v.func, ast.Attribute) and isinstance(v.func.value, ast.Name) and v.func.value.id == 'logger':
                    return ast.Pass()
                return node
        body = [Strip().visit(n) for n in fn.body]
        return ast.unparse(ast.Module(body=[n for n in body if n is not None], type_ignores=[])).replace(' ', '').replace('\n', ';')
    ba = ast.parse((REPO / 'core/base.py').read_text())
    bcls = [n for n in ba.body if isinstance(n, ast.ClassDef) and n.name == 'BaseNeuron'][0]
    ct = [n for n in bcls.body if isinstance(n, ast.FunctionDef) and n.name == '_clear_temp_attr'][0]
    s2 = core_stmts(ct)
    f['clear_src'] = s2
    f['clear_ok'] = s2 == ('ifself.is_locked:;pass;return;self._current_md5=self.core_md5;self._stale=False;'
                           'forain[atforatinself.TEMP_ATTRifatnotinexclude]:;try:;delattr(self,a);pass;exceptAttributeError:;pass;exceptBaseException:;raise')
    st = [n for n in bcls.body if isinstance(n, ast.FunctionDef) and n.name == 'is_stale'][0]
    s3 = ast.unparse(st).replace(' ', '')
    f['clear_ok'] = f['clear_ok'] and 'self._stale=self._current_md5!=self.core_md5' in s3
    # lock_neuron: the lock taken before the call is released in a `finally` (also when the wrapped function raises)
    de = ast.parse((REPO / 'utils/decorators.py').read_text())
    ln = [n for n in de.body if isinstance(n, ast.FunctionDef) and n.name == 'lock_neuron'][0]
    wr = [n for n in ast.walk(ln) if isinstance(n, ast.FunctionDef) and n.name == 'wrapper'][0]
    tries = [n for n in wr.body if isinstance(n, ast.Try)]
    f['lock_ok'] = bool(tries) and any('_lock-=1' in ast.unparse(x).replace(' ', '') for t in tries for x in t.finalbody) \
        and all('_lock-=1' not in ast.unparse(n).replace(' ', '') for n in wr.body if not isinstance(n, ast.Try)) \
        and any('_lock=getattr(args[0],' in ast.unparse(n).replace(' ', '') for n in wr.body)
    return f


def generate():
    f = facts()
    txt = ['(* GENERATED by translate/cache.py from /repo/navis on every run -- do not edit *)',
           'From Coq Require Import List String Bool.', 'Import ListNotations.', 'Open Scope string_scope.',
           'Definition temp_attr : list string := %s.' % coq_list(coq_str(a) for a in f['temp_attr']),
           'Definition core_data : list string := %s.' % coq_list(coq_str(a) for a in f['core_data']),
           '(* (property, cached attribute, wrapped in temp_property) *)',
           'Definition views : list (string * string * bool) := %s.' % coq_list(
               '(%s, %s, %s)' % (coq_str(a), coq_str(b), 'true' if c else 'false') for a, b, c in f['views']),
           '(* (call site, literal exclude list, enclosing function is @lock_neuron) *)',
           'Definition clear_sites : list (string * list string * bool) := %s.' % coq_list(
               '(%s, %s, %s)' % (coq_str(a), coq_list(coq_str(e) for e in b), 'true' if c else 'false') for a, b, c in f['clear_sites']),
           '(* clear calls nested under a test on `inplace` *)',
           'Definition conditional_clears : list string := %s.' % coq_list(coq_str(a) for a in f['conditional_clears']),
           '(* (site of  x.__init__(...)  outside a constructor, followed by an unconditional x._clear_temp_attr()) *)',
           'Definition reinit_sites : list (string * bool) := %s.' % coq_list('(%s, %s)' % (coq_str(a), 'true' if b else 'false') for a, b in f['reinit_sites']),
           'Definition getstate_pops : list string := %s.' % coq_list(coq_str(a) for a in f['getstate_pops']),
           'Definition copy_clears_when_stale : bool := %s.' % ('true' if f['copy_clears'] else 'false'),
           'Definition temp_property_shape_ok : bool := %s.' % ('true' if f['tp_ok'] else 'false'),
           'Definition clear_shape_ok : bool := %s.' % ('true' if f['clear_ok'] else 'false'),
           'Definition lock_released_in_finally : bool := %s.' % ('true' if f['lock_ok'] else 'false'), '']
    msg = '%d TEMP_ATTR, %d cached views, %d clear sites' % (len(f['temp_attr']), len(f['views']), len(f['clear_sites']))
    return [('Gen_Cache.v', True, msg, '\n'.join(txt))]
