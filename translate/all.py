"""Run every translator; each writes coq/gen/<Name>.v (only when content changes) and reports
{genfile: (ok, message)}.  A translator that does not recognise the source fails closed:
it reports ok=False and emits a file whose obligation is False."""
import importlib
import os
import traceback

VERIF = os.path.dirname(os.path.dirname(os.path.abspath(__file__)))
GEN = os.path.join(VERIF, 'coq', 'gen')
MODULES = ['cache', 'dispatch', 'smat', 'alias']


def write_if_changed(name, text):
    os.makedirs(GEN, exist_ok=True)
    p = os.path.join(GEN, name)
    old = open(p).read() if os.path.exists(p) else None
    if old != text:
        with open(p, 'w') as fh:
            fh.write(text)


def run():
    status = {}
    for m in MODULES:
        mod = importlib.import_module('translate.' + m)
        try:
            for name, ok, msg, text in mod.generate():
                write_if_changed(name, text)
                status[name] = (ok, msg)
        except Exception as e:  # fail closed
            for name in getattr(mod, 'OUTPUTS', []):
                status[name] = (False, 'translator crashed: %s %s' % (e, traceback.format_exc()[-500:]))
                write_if_changed(name, getattr(mod, 'FAIL_TEXT', {}).get(name, '(* translator failed *)\nDefinition translator_failed : True := I.\n'))
    return status


if __name__ == '__main__':
    for k, v in run().items():
        print(k, v)
