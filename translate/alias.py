"""C03 translator: (1) the per-attribute copy policy of every neuron class' `copy`, (2) the inplace shape of every function /
method in the anchored modules that has an `inplace` parameter or is a public function taking a neuron.

-> coq/gen/Gen_Alias.v :
     copy_policies : list (string * policy * list (string * policy))     (class, default, per-attribute overrides)
     catalogue     : list (string * shape)
     expected      : list (string * shape)     (committed in translate/expected_shapes.json when the framework was built)
Fail-closed: anything not recognised is `Unknown` / `Shallow`."""
import ast
import json
import os
import pathlib

REPO = pathlib.Path('/repo/navis')
HERE = pathlib.Path(os.path.dirname(os.path.abspath(__file__)))
OUTPUTS = ['Gen_Alias.v']
FAIL_TEXT = {'Gen_Alias.v': '''From Coq Require Import List String Bool.
Import ListNotations.
From Navis Require Import model.Alias.
Open Scope string_scope.
Definition copy_policies : list (string * policy * list (string * policy)) := [("translator failed", Shallow, [])].
Definition catalogue : list (string * shape) := [("translator failed", Unknown)].
Definition expected : list (string * shape) := [("translator failed", CopyThenOperate)].
'''}
CLASS_FILES = {'BaseNeuron': 'core/base.py', 'TreeNeuron': 'core/skeleton.py', 'Dotprops': 'core/dotprop.py',
               'MeshNeuron': 'core/mesh.py', 'VoxelNeuron': 'core/voxel.py'}
MODULES = ['core/skeleton.py', 'core/base.py', 'core/dotprop.py', 'core/mesh.py', 'core/voxel.py', 'core/neuronlist.py',
           'morpho/manipulation.py', 'morpho/mmetrics.py', 'morpho/subset.py', 'morpho/images.py', 'graph/graph_utils.py',
           'sampling/resampling.py', 'sampling/downsampling.py', 'transforms/xfm_funcs.py', 'transforms/templates.py',
           'intersection/intersect.py', 'meshes/operations.py', 'meshes/mesh_utils.py', 'conversion/converters.py', 'conversion/wrappers.py']
NEURON_PARAMS = ('x', 'neuron', 'n', 'self', 'skeleton', 'mesh')


# ------------------------------------------------------------------ copy policies
def copy_policy(cls, path):
    tree = ast.parse((REPO / path).read_text())
    cdef = next(n for n in ast.walk(tree) if isinstance(n, ast.ClassDef) and n.name == cls)
    fn = next(n for n in cdef.body if isinstance(n, ast.FunctionDef) and n.name == 'copy')
    default, overrides, seen_update = None, [], False
    for node in ast.walk(fn):
        # x.__dict__.update({k: F(v) for k, v in self.__dict__.items() if k not in no_copy})
        if isinstance(node, ast.Call) and ast.unparse(node.func).endswith('.__dict__.update') and node.args and isinstance(node.args[0], ast.DictComp):
            dc = node.args[0]
            f = ast.unparse(dc.value.func) if isinstance(dc.value, ast.Call) else None
            src = ast.unparse(dc.generators[0].iter)
            if src != 'self.__dict__.items()' or f not in ('copy.copy', 'copy_fn', 'copy.deepcopy'):
                return None
            # copy_fn = copy.deepcopy if deepcopy else copy.copy  -> the default call (deepcopy=False) is the shallow one
            default = 'Deep' if f == 'copy.deepcopy' else 'Shallow'
            seen_update = True
    if not seen_update:
        return None
    # explicit element-wise re-copies after the update:  x.tags = {k: copy.copy(v) for k, v in x.tags.items()}  /  copy.deepcopy(self.tags)
    for node in ast.walk(fn):
        if isinstance(node, ast.Assign) and len(node.targets) == 1 and isinstance(node.targets[0], ast.Attribute) \
                and isinstance(node.targets[0].value, ast.Name) and node.targets[0].value.id == 'x':
            a = node.targets[0].attr
            v = node.value
            if isinstance(v, ast.DictComp) and isinstance(v.value, ast.Call) and ast.unparse(v.value.func) in ('copy.copy', 'copy.deepcopy', 'list') \
                    and ast.unparse(v.generators[0].iter) in ('x.%s.items()' % a, 'self.%s.items()' % a):
                overrides.append((a, 'Deep'))
            elif isinstance(v, ast.Call) and ast.unparse(v.func) == 'copy.deepcopy' and ast.unparse(v.args[0]) in ('x.' + a, 'self.' + a):
                overrides.append((a, 'Deep'))
    return default, overrides


# ------------------------------------------------------------------ function shapes
def rooted_at(node, names):
    """the Name at the root of an attribute / subscript chain, if it is one of `names`"""
    cur = node
    while isinstance(cur, (ast.Attribute, ast.Subscript)):
        cur = cur.value
    return cur.id if isinstance(cur, ast.Name) and cur.id in names else None


def is_copy_of(value, names):
    """value is  N.copy(...)  for N in names"""
    return isinstance(value, ast.Call) and isinstance(value.func, ast.Attribute) and value.func.attr == 'copy' \
        and isinstance(value.func.value, ast.Name) and value.func.value.id in names


def test_is_not_inplace(t):
    s = ast.unparse(t)
    return s in ('not inplace', 'inplace is False', 'inplace == False', 'not inplace_')


CORE = {'nodes', 'connectors', 'vertices', 'faces', 'points', 'vect', 'alpha', 'units', 'name', 'id', 'soma', 'tags', 'neurons',
        '_nodes', '_connectors', '_vertices', '_faces', '_points', '_vect', '_alpha', '_soma', '_data', 'grid', 'voxels', 'values', 'offset', 'k'}


def classify(fn):
    """Walk the statements in source order, tracking which local names denote the caller's object (`orig`) and which denote the
    working object (`work`: a copy when not inplace / always a copy).  A write rooted at an `orig` name modifies the input."""
    if any('overload' in ast.unparse(d) for d in fn.decorator_list):
        return None
    params = [a.arg for a in fn.args.args + fn.args.kwonlyargs]
    has_inplace = 'inplace' in params or 'copy' in params      # arithmetic dunders take `copy=True` (= not inplace)
    first = params[0] if params else None
    if first not in NEURON_PARAMS:
        return None
    orig, work = {first}, set()
    guard, input_writes, forwards = False, [], False
    names = lambda: orig | work

    def is_copy(val):
        return is_copy_of(val, names())

    def forwarding_call(val):
        if not isinstance(val, ast.Call) or not any(kw.arg == 'inplace' and ast.unparse(kw.value) == 'inplace' for kw in val.keywords):
            return False
        if val.args and isinstance(val.args[0], ast.Name) and val.args[0].id in names():
            return True
        return isinstance(val.func, ast.Attribute) and isinstance(val.func.value, ast.Name) and val.func.value.id in names()

    def to_work(n):
        nonlocal guard
        guard = True
        work.add(n); orig.discard(n)

    in_inplace_if = set()
    for node in ast.walk(fn):
        if isinstance(node, ast.If) and 'inplace' in ast.unparse(node.test):
            for sub in node.body + node.orelse:
                for d in ast.walk(sub):
                    in_inplace_if.add(id(d))
    stmts = sorted([n for n in ast.walk(fn) if isinstance(n, ast.stmt)], key=lambda n: (n.lineno, n.col_offset))
    for st in stmts:
        # ---- writes performed by this statement (evaluated with the name state BEFORE it rebinds anything)
        targets = []
        if isinstance(st, ast.Assign):
            targets = st.targets
        elif isinstance(st, (ast.AugAssign, ast.AnnAssign)) and getattr(st, 'value', None) is not None:
            targets = [st.target]
        for t in targets:
            for tt in (t.elts if isinstance(t, ast.Tuple) else [t]):
                if isinstance(tt, (ast.Attribute, ast.Subscript)) and rooted_at(tt, orig):
                    input_writes.append(ast.unparse(tt))
        own = [st.value] if isinstance(st, (ast.Expr, ast.Assign, ast.Return)) and getattr(st, 'value', None) is not None else []
        for root in own:
            for node in ast.walk(root):
                if not isinstance(node, ast.Call):
                    continue
                lit_true = any(kw.arg == 'inplace' and ast.unparse(kw.value) == 'True' for kw in node.keywords)
                if any(kw.arg == 'inplace' and ast.unparse(kw.value) == 'inplace' for kw in node.keywords):
                    forwards = True
                on_orig = isinstance(node.func, ast.Attribute) and rooted_at(node.func.value, orig)
                first_orig = bool(node.args) and isinstance(node.args[0], ast.Name) and node.args[0].id in orig
                if lit_true and (on_orig or first_orig):
                    input_writes.append(ast.unparse(node.func) + '(inplace=True)')
                if on_orig and isinstance(node.func.value, ast.Name) and node.func.attr in ('__init__', '_register_attr'):      # (_clear_temp_attr only drops caches: not observable)
                    if not (has_inplace and id(node) in in_inplace_if):
                        input_writes.append(ast.unparse(node.func) + '()')
                if on_orig and ast.unparse(node.func).endswith('.__dict__.update') and not (has_inplace and id(node) in in_inplace_if):
                    input_writes.append(ast.unparse(node.func) + '()')
        # ---- rebinding of names
        if isinstance(st, ast.Assign) and len(st.targets) == 1 and isinstance(st.targets[0], ast.Name):
            tgt, val = st.targets[0].id, st.value
            if isinstance(val, ast.Name) and val.id in orig and id(st) not in in_inplace_if:
                orig.add(tgt); work.discard(tgt)                     # original = x
            elif isinstance(val, ast.Name) and val.id in work:
                work.add(tgt); orig.discard(tgt)
            elif isinstance(val, ast.IfExp):                          # x = self if inplace else self.copy()
                t = ast.unparse(val.test)
                if (t == 'inplace' and isinstance(val.body, ast.Name) and val.body.id in names() and is_copy(val.orelse)) or \
                   (t in ('not inplace', 'copy') and is_copy(val.body) and isinstance(val.orelse, ast.Name) and val.orelse.id in names()):
                    to_work(tgt)
            elif forwarding_call(val) and has_inplace:                # x = f(x, inplace=inplace)
                to_work(tgt)
            elif is_copy(val) and id(st) not in in_inplace_if:        # xf = x.copy()   (unconditional)
                to_work(tgt)
            elif tgt in orig and id(st) not in in_inplace_if and not (isinstance(val, ast.Subscript) and rooted_at(val, orig)):
                orig.discard(tgt)                                     # x = <something else>: the name no longer denotes the input
        if isinstance(st, ast.If) and test_is_not_inplace(st.test):   # if not inplace: x = x.copy()
            for b in st.body:
                if isinstance(b, ast.Assign) and len(b.targets) == 1 and isinstance(b.targets[0], ast.Name) and is_copy(b.value):
                    to_work(b.targets[0].id)
        if isinstance(st, ast.If) and ast.unparse(st.test) == 'inplace' and st.orelse:   # if inplace: x = self  else: x = self.copy()
            a_ok = any(isinstance(b, ast.Assign) and isinstance(b.value, ast.Name) and b.value.id in names() for b in st.body)
            for b in st.orelse:
                if a_ok and isinstance(b, ast.Assign) and len(b.targets) == 1 and isinstance(b.targets[0], ast.Name) and is_copy(b.value):
                    to_work(b.targets[0].id)
    if has_inplace:
        if guard and not input_writes:
            return 'CopyThenOperate'
        if not guard and not input_writes and forwards:
            return 'Delegates'
        return 'Unknown'
    if not input_writes:
        return 'Delegates' if forwards else 'ReadOnly'      # never writes through the input (possibly works on an unconditional copy)

    def annotation(w):
        tail = w.split('.', 1)[-1]
        col_write = any(tail.startswith(k) for k in ('nodes[', 'connectors[', 'nodes.loc[', 'connectors.loc['))
        attr_write = '[' not in tail and '(' not in tail and '.' not in tail and tail not in CORE
        return col_write or attr_write
    if all(annotation(w) for w in input_writes):
        return 'Annotates'
    return 'Unknown'


def facts():
    cat = []
    for m in MODULES:
        p = REPO / m
        if not p.exists():
            continue
        tree = ast.parse(p.read_text())
        for node in tree.body:
            if isinstance(node, ast.FunctionDef) and not node.name.startswith('_'):
                sh = classify(node)
                if sh:
                    cat.append(('%s:%s' % (m, node.name), sh))
            if isinstance(node, ast.ClassDef):
                for fn in node.body:
                    if isinstance(fn, ast.FunctionDef) and ((not fn.name.startswith('_') and 'inplace' in [a.arg for a in fn.args.args + fn.args.kwonlyargs])
                                                            or fn.name in ('__mul__', '__truediv__', '__add__', '__sub__')):
                        sh = classify(fn)
                        if sh:
                            cat.append(('%s:%s.%s' % (m, node.name, fn.name), sh))
    last = {}
    for n, sh in cat:
        last[n] = sh
    return sorted(last.items())


def generate():
    pols, ok, msgs = [], True, []
    for cls, path in CLASS_FILES.items():
        r = copy_policy(cls, path)
        if r is None:
            ok = False
            msgs.append('copy of %s not recognised' % cls)
            pols.append((cls, 'Shallow', []))
        else:
            pols.append((cls, r[0], r[1]))
    cat = facts()
    exp_path = HERE / 'expected_shapes.json'
    expected = json.load(open(exp_path)) if exp_path.exists() else {}
    q = lambda s: '"' + s + '"'
    txt = ['(* GENERATED by translate/alias.py from /repo/navis on every run -- do not edit *)',
           'From Coq Require Import List String Bool.', 'Import ListNotations.', 'From Navis Require Import model.Alias.', 'Open Scope string_scope.',
           '(* (class, policy of the per-attribute copy in `copy`, attributes whose elements are copied as well) *)',
           'Definition copy_policies : list (string * policy * list (string * policy)) := [' +
           '; '.join('(%s, %s, [%s])' % (q(c), d, '; '.join('(%s, %s)' % (q(a), p) for a, p in o)) for c, d, o in pols) + '].',
           '(* inplace shape of every catalogued function / method in the CURRENT source *)',
           'Definition catalogue : list (string * shape) := [' + ';\n  '.join('(%s, %s)' % (q(n), s) for n, s in cat) + '].',
           '(* the shapes recorded when the framework was built (translate/expected_shapes.json) *)',
           'Definition expected : list (string * shape) := [' + ';\n  '.join('(%s, %s)' % (q(n), s) for n, s in sorted(expected.items())) + '].', '']
    return [('Gen_Alias.v', ok, '; '.join(msgs) or '%d catalogued functions, %d unknown' % (len(cat), sum(1 for _, s in cat if s == 'Unknown')), '\n'.join(txt))]


if __name__ == '__main__':
    for n, s in facts():
        print(s, n)
    for cls, path in CLASS_FILES.items():
        print(cls, copy_policy(cls, path))
